"""C20 — tera-contrib codecs (partial): percent-encode sets evaluated at compile time, base64 alphabet agreement, json delegation."""
import binascii
from engine import (Tracer, EdgeFacts, find_calls, find_aggs, AnchorMissing, leaf_str, leaf_call_is, callee_def, callee_names, name_matches,
                    iter_operands, pl_str, kwarg_locals)

EXPLANATION = (
    "Decides, from the compile-time-evaluated constants and the MIR of tera-contrib: (URL) the percent-encode set handed to percent_encode by "
    "`urlencode`, read bit by bit for all 128 ASCII codes, escapes exactly the complement of ALPHA / DIGIT / - . _ ~ / ; `urlencode_strict` uses "
    "NON_ALPHANUMERIC whose bits escape exactly the non-alphanumerics; both apply percent_encode to val.as_bytes() and return its to_string() "
    "unmodified (exhaustive over the 128 codes; non-ASCII bytes are always escaped by the crate's contract); (B64) encoder and decoder use the "
    "same alphabet for each value of url_safe, `padded` only selects the *_NO_PAD twin, and both decode engines are built with "
    "DecodePaddingMode::Indifferent (so every encoder output decodes); (JSON) json_encode is exactly serde_json::to_string[_pretty] of the "
    "value, i.e. fidelity reduces to `Serialize for Value` (C19); slug delegates verbatim to slug::slugify. NOT decided: behaviour of the "
    "third-party crates themselves (percent-encoding on non-ASCII, base64 engines, slug output alphabet, serde_json).")
NOT_DECIDED = "third-party crate behaviour (percent-encoding, base64, serde_json, slug); decoder error behaviour"
EXHAUSTIVE = True
ASSUMPTIONS = ["percent_encoding::percent_encode escapes exactly the bytes in the set plus all non-ASCII bytes as %XX",
               "base64 engines round-trip for equal alphabets when decode padding is Indifferent", "serde_json is a faithful JSON serializer"]

UNRESERVED_PLUS_SLASH = set(b"ABCDEFGHIJKLMNOPQRSTUVWXYZabcdefghijklmnopqrstuvwxyz0123456789-._~/")
ALNUM = set(b"ABCDEFGHIJKLMNOPQRSTUVWXYZabcdefghijklmnopqrstuvwxyz0123456789")
STD_ALPHABET = b"ABCDEFGHIJKLMNOPQRSTUVWXYZabcdefghijklmnopqrstuvwxyz0123456789+/"
URL_ALPHABET = b"ABCDEFGHIJKLMNOPQRSTUVWXYZabcdefghijklmnopqrstuvwxyz0123456789-_"


def mask_bits(hexbytes):
    raw = binascii.unhexlify(hexbytes)
    if len(raw) != 16:
        return None
    enc = set()
    for code in range(128):
        word = int.from_bytes(raw[(code // 32) * 4:(code // 32) * 4 + 4], "little")
        if (word >> (code % 32)) & 1:
            enc.add(code)
    return enc


def run(ctx, rep):
    crate = ctx.crate("contrib:codecs")
    check_url(crate, rep)
    check_b64(crate, rep)
    check_json_slug(crate, rep)
    if ctx.tier == "thorough":
        c2 = ctx.crate("contrib:all")
        check_url(c2, rep, tag=":all-features")
        check_b64(c2, rep, tag=":all-features")


def encode_set_of(crate, fn_suffix, rep, tag):
    b = crate.one(fn_suffix)
    rep.analysed(b)
    calls = list(find_calls(b, ["percent_encoding::percent_encode"]))
    name = fn_suffix.rsplit("::", 1)[-1]
    if len(calls) != 1:
        rep.bad("C20.URL", "C20.URL:%s:one-percent_encode%s" % (name, tag), b.where(0), "anchor-missing: %d percent_encode calls" % len(calls))
        return None, b
    bb, t = calls[0]
    tr = Tracer(b)
    src = tr.operand(t["args"][0])
    ok_src = bool(src) and all(l.kind == "param" and l.detail == 1 and any("as_bytes" in p for p in l.projs) for l in src)
    rep.add("C20.URL", "C20.URL:%s:input%s" % (name, tag), ok_src, b.where(bb), "%s percent-encodes `val.as_bytes()` (the whole input)" % name + ("" if ok_src else " — VIOLATED"))
    # result returned unmodified: _0 = to_string(&percent_encode result)
    ok_ret = False
    for b2, t2 in find_calls(b, ["std::string::ToString::to_string"]):
        if t2["dest"]["l"] == 0:
            leaves = tr.operand(t2["args"][0])
            if leaves and all(l.kind == "call" and l.detail[2] == bb for l in leaves):
                ok_ret = True
    n_calls = len(list(b.calls()))
    rep.add("C20.URL", "C20.URL:%s:output%s" % (name, tag), ok_ret and n_calls <= 4, b.where(0), "%s returns percent_encode(..).to_string() unmodified (%d calls in the body)" % (name, n_calls)
            + ("" if ok_ret and n_calls <= 4 else " — VIOLATED"))
    setop = t["args"][1]
    return setop, b


def check_url(crate, rep, tag=""):
    # urlencode
    setop, b = encode_set_of(crate, "urlencode::urlencode", rep, tag)
    if setop is not None:
        cdef = setop.get("cdef")
        c = crate.consts.get(cdef or "")
        hexb = (c or {}).get("ptr_bytes") or setop.get("pb")
        key = "C20.URL:urlencode:set%s" % tag
        enc = mask_bits(hexb) if hexb else None
        if enc is None:
            rep.bad("C20.URL", key, b.where(0), "anchor-missing: compile-time value of the encode set (%s)" % cdef)
        else:
            wrong = sorted(code for code in range(128) if (code in enc) == (code in UNRESERVED_PLUS_SLASH))
            if wrong:
                rep.bad("C20.URL", key, "%s:%s" % ((c or {}).get("file"), (c or {}).get("line")), "for all 128 ASCII codes: escaped <=> not in ALPHA/DIGIT/-._~/ — VIOLATED for %s"
                        % [("0x%02x" % w, chr(w) if 32 <= w < 127 else "?") for w in wrong][:8])
            else:
                rep.ok("C20.URL", key, "%s:%s" % ((c or {}).get("file"), (c or {}).get("line")), "for all 128 ASCII codes: escaped <=> not in ALPHA/DIGIT/-._~/ "
                       "(const %s = %s, %d codes escaped)" % (cdef, hexb, len(enc)))
            for code in range(128):
                pass
    # urlencode_strict
    setop, b = encode_set_of(crate, "urlencode::urlencode_strict", rep, tag)
    if setop is not None:
        hexb = setop.get("pb")
        key = "C20.URL:urlencode_strict:set%s" % tag
        enc = mask_bits(hexb) if hexb else None
        if enc is None or not (setop.get("cdef") or "").endswith("NON_ALPHANUMERIC"):
            rep.bad("C20.URL", key, b.where(0), "urlencode_strict passes percent_encoding::NON_ALPHANUMERIC — VIOLATED/anchor-missing: set operand %s" % setop.get("cdef"))
        else:
            wrong = sorted(code for code in range(128) if (code in enc) == (code in ALNUM))
            (rep.ok if not wrong else rep.bad)("C20.URL", key, b.where(0), "NON_ALPHANUMERIC escapes exactly the non-alphanumeric ASCII codes (all 128 checked; value %s)" % hexb
                                               + ("" if not wrong else " — VIOLATED for %s" % wrong[:8]))


def check_b64(crate, rep, tag=""):
    enc = crate.one("base64::b64_encode")
    dec = crate.one("base64::b64_decode")
    rep.analysed(enc, dec)
    ef = EdgeFacts(enc, crate)
    # encode: engine constant per (url_safe, padded)
    engines = {}
    enc_bytes = {}
    for bb, idx, s in enc.stmts():
        for op in iter_operands(s):
            if op["k"] == "const" and "GeneralPurpose" in op.get("ty", ""):
                names = op.get("psrc") or ([op["cdef"]] if op.get("cdef") and not op.get("promoted") else [])
                if len(names) == 1:
                    engines[bb] = names[0].rsplit("::", 1)[-1]
                    enc_bytes[engines[bb]] = binascii.unhexlify(op.get("pb") or "")
    rep.floor("C20.B64", "engine constants used by b64_encode%s" % tag, len(engines), 4)
    us = kwarg_locals(enc, "url_safe")
    pd = kwarg_locals(enc, "padded")

    def conds(bb):
        """(url_safe, padded) truth implied by dominating switch edges on the tuple of the two bools"""
        res = {}
        for sb in sorted(enc.reachable):
            t = enc.term(sb)
            if t["k"] != "switch" or not enc.dominates(sb, bb) or sb == bb or t["op"]["k"] == "const":
                continue
            pl = t["op"]["pl"]
            # switch on _t.0 / _t.1 where _t = (url_safe, padded)
            if len(pl["p"]) == 1 and isinstance(pl["p"][0], dict):
                fld = pl["p"][0]["n"]
                d = [x for x in enc.defs.get(pl["l"], []) if not x[2]]
                if len(d) == 1 and d[0][3]["k"] == "agg" and d[0][3]["ak"] == "tuple":
                    op = d[0][3]["ops"][int(fld)]
                    src = op["pl"]["l"] if op["k"] in ("copy", "move") else None
                    srcs = {src}
                    for (b2, i2, dp, rv) in enc.defs.get(src, []):
                        if rv["k"] == "use" and rv["op"]["k"] in ("copy", "move"):
                            srcs.add(rv["op"]["pl"]["l"])
                    name = "url_safe" if srcs & us else ("padded" if srcs & pd else None)
                    if name:
                        for v, tgt in t["targets"]:
                            if enc.dominates(tgt, bb) and tgt != sb:
                                res[name] = (v != "0")
                        if enc.dominates(t["otherwise"], bb) and t["otherwise"] != sb and len(t["targets"]) == 1:
                            res[name] = (t["targets"][0][0] == "0")
        return res
    want = {(False, True): "STANDARD", (False, False): "STANDARD_NO_PAD", (True, True): "URL_SAFE", (True, False): "URL_SAFE_NO_PAD"}
    seen = {}
    for bb, eng in engines.items():
        c = conds(bb)
        if "url_safe" in c and "padded" in c:
            seen[(c["url_safe"], c["padded"])] = eng
    for k, w in want.items():
        key = "C20.B64:encode:url_safe=%s,padded=%s%s" % (k[0], k[1], tag)
        ok = seen.get(k) == w
        (rep.ok if ok else rep.bad)("C20.B64", key, enc.where(0), "b64_encode(url_safe=%s, padded=%s) uses general_purpose::%s" % (k[0], k[1], w)
                                    + ("" if ok else " — VIOLATED: uses %s" % seen.get(k)))
    # encoder alphabets by value
    for eng, alpha in (("STANDARD", STD_ALPHABET), ("STANDARD_NO_PAD", STD_ALPHABET), ("URL_SAFE", URL_ALPHABET), ("URL_SAFE_NO_PAD", URL_ALPHABET)):
        raw = enc_bytes.get(eng, b"")
        ok = alpha in raw
        rep.add("C20.B64", "C20.B64:encode:alphabet:%s%s" % (eng, tag), ok, enc.where(0), "the compile-time value of general_purpose::%s contains the %s alphabet" % (
            eng, "standard" if alpha is STD_ALPHABET else "url-safe") + ("" if ok else " — VIOLATED"))
    # one message: the whole input goes through Engine::encode in a single call — base64 of a concatenation is not the concatenation of
    # base64s unless every piece but the last is a multiple of 3 bytes (pieces encoded separately carry padding / filler bits inside)
    etr = Tracer(enc)
    all_calls = [(bb, t) for bb, t in enc.calls()]
    encs = [(bb, t) for bb, t in all_calls if callee_def(t).endswith("Engine::encode")]
    piece = sorted({callee_def(t).rsplit("::", 1)[-1] for bb, t in all_calls if callee_def(t).rsplit("::", 1)[-1] in
                    ("encode_string", "encode_slice", "chunks", "chunks_exact", "windows", "split_at", "push_str", "extend")})
    ok = bool(encs) and not piece and not enc.natural_loops()
    why = "piecewise encoding (%s)" % (piece or "loop")
    if ok:
        for bb, t in encs:
            dl = [l for l in etr.operand(t["args"][1]) if l.kind != "cycle"]
            if not (dl and all(l.kind == "param" and l.detail == 1 and not any(p.startswith(".") or p == "[_]" for p in l.projs) for l in dl)):
                ok, why = False, "Engine::encode is not applied to the whole input (%s)" % sorted(leaf_str(l) for l in dl)[:2]
        oks = list(find_aggs(enc, "std::result::Result", "Ok"))
        for bb, idx, st in oks:
            ol = [l for l in etr.operand(st["rv"]["ops"][0]) if l.kind != "cycle"]
            if not (ol and all(l.kind == "call" and l.detail[2] in {e[0] for e in encs} for l in ol)):
                ok, why = False, "the answer is not Engine::encode's result"
    rep.add("C20.B64", "C20.B64:encode:one-message%s" % tag, ok, enc.where(encs[0][0]) if encs else enc.where(0), "b64_encode returns Engine::encode(<the whole input>) — one base64 "
            "message, no piecewise encoding" + ("" if ok else " — VIOLATED: " + why))
    # "invalid input to a decoder is an error": the decoded bytes become a String through String::from_utf8 whose Err is mapped and
    # returned — no lossy conversion, no default
    dcalls = {callee_def(t).rsplit("::", 1)[-1] for bd in crate.with_closures(dec) for bb, t in bd.calls()}
    lossy = sorted(dcalls & {"from_utf8_lossy", "from_utf8_unchecked"})
    fu = [(bb, t) for bb, t in dec.calls() if callee_def(t).endswith("String::from_utf8")]
    strict = len(fu) == 1
    if strict:
        # what consumes the Result of from_utf8: map_err (then returned / `?`), or nothing but the return
        d = fu[0][1]["dest"]["l"]
        users = [callee_def(t).rsplit("::", 1)[-1] for bb, t in dec.calls() if any(a["k"] in ("copy", "move") and not a["pl"]["p"] and a["pl"]["l"] == d for a in t["args"])]
        if any(u not in ("map_err", "branch") for u in users):
            lossy = sorted(set(lossy) | {u for u in users if u not in ("map_err", "branch")})
    ok = strict and not lossy
    rep.add("C20.B64", "C20.B64:decode:invalid-utf8-is-an-error%s" % tag, ok, dec.where(0), "b64_decode turns the bytes into text with String::from_utf8 and returns its error (mapped), "
            "nothing lossy" + ("" if ok else " — VIOLATED: %s" % (lossy or "no String::from_utf8")))
    # decode: const per url_safe, alphabets by value
    efd = EdgeFacts(dec, crate)
    dus = kwarg_locals(dec, "url_safe")
    used = {}
    for bb, idx, s in dec.stmts():
        for op in iter_operands(s):
            if op["k"] == "const" and "GeneralPurpose" in op.get("ty", "") and (op.get("psrc") or (op.get("cdef") and not op.get("promoted"))):
                op = dict(op, cdef=(op.get("psrc") or [op.get("cdef")])[0])
                # which branch?
                for sb in sorted(dec.reachable):
                    t = dec.term(sb)
                    if t["k"] == "switch" and dec.dominates(sb, bb) and sb != bb and t["op"]["k"] != "const" and not t["op"]["pl"]["p"]:
                        srcs = {t["op"]["pl"]["l"]}
                        for (b2, i2, dp, rv) in dec.defs.get(t["op"]["pl"]["l"], []):
                            if rv["k"] == "use" and rv["op"]["k"] in ("copy", "move"):
                                srcs.add(rv["op"]["pl"]["l"])
                        if srcs & dus:
                            for v, tgt in t["targets"]:
                                if dec.dominates(tgt, bb) and tgt != sb:
                                    used[v != "0"] = op["cdef"]
                            if dec.dominates(t["otherwise"], bb) and t["otherwise"] != sb:
                                used[t["targets"][0][0] == "0"] = op["cdef"]
    for flag, alpha, label in ((False, STD_ALPHABET, "standard"), (True, URL_ALPHABET, "url-safe")):
        key = "C20.B64:decode:url_safe=%s%s" % (flag, tag)
        cdef = used.get(flag)
        c = crate.consts.get(cdef or "")
        raw = binascii.unhexlify(c["bytes"]) if c and c.get("bytes") else b""
        ok = alpha in raw
        (rep.ok if ok else rep.bad)("C20.B64", key, dec.where(0), "b64_decode(url_safe=%s) uses %s whose compile-time value contains the %s alphabet (same as the encoder's)" % (
            flag, cdef, label) + ("" if ok else " — VIOLATED"))
        cb = crate.bodies.get(cdef or "")
        okp = False
        if cb is not None:
            for bb, t in find_calls(cb, ["base64::engine::GeneralPurposeConfig::with_decode_padding_mode"]):
                leaves = Tracer(cb).operand(t["args"][1])
                if leaves and all(l.kind == "agg" and l.detail[2] == "Indifferent" for l in leaves):
                    okp = True
        key = "C20.B64:decode:padding-indifferent:url_safe=%s%s" % (flag, tag)
        (rep.ok if okp else rep.bad)("C20.B64", key, cb.where(0) if cb else "", "%s is built with DecodePaddingMode::Indifferent (padded and unpadded encoder outputs both decode)" % cdef
                                     + ("" if okp else " — VIOLATED"))


def check_json_slug(crate, rep):
    j = crate.one("json::json_encode")
    rep.analysed(j)
    tr = Tracer(j)
    calls = [(bb, t) for bb, t in j.calls() if callee_def(t).startswith("serde_json::")]
    ok = len(calls) == 2 and {callee_def(t).rsplit("::", 1)[-1] for bb, t in calls} == {"to_string", "to_string_pretty"}
    for bb, t in calls:
        leaves = tr.operand(t["args"][0])
        if not (leaves and all(l.kind == "param" and l.detail == 1 for l in leaves)):
            ok = False
    rep.add("C20.JSON", "C20.JSON:json_encode:delegates", ok, j.where(0), "json_encode is serde_json::to_string / to_string_pretty of the value itself (fidelity reduces to "
            "`Serialize for Value`, C19)" + ("" if ok else " — VIOLATED"))
    # every value json_encode returns comes from the serde_json result (through map_err) or is an argument error via `?`
    rets = []
    for bb, idx, st in j.stmts():
        if idx == "t":
            if st["k"] == "call" and st["dest"]["l"] == 0 and not st["dest"]["p"]:
                rets.append((bb, callee_def(st), st))
        elif st["k"] == "assign" and st["pl"]["l"] == 0 and not st["pl"]["p"]:
            rets.append((bb, "assign:" + st["rv"]["k"] + ":" + str(st["rv"].get("variant")), st))
    ok = bool(rets)
    for bb, what_, st in rets:
        if what_.endswith("from_residual"):
            continue
        if what_.endswith("::map_err"):
            leaves = tr.operand(st["args"][0])
            if leaves and all(l.kind == "call" and l.detail[0].startswith("serde_json::to_string") for l in leaves):
                continue
        ok = False
    rep.add("C20.JSON", "C20.JSON:json_encode:returns-only-serde_json", ok, j.where(0), "every return of json_encode is `serde_json result.map_err(..)` or a propagated argument error "
            "(%d return sites)" % len(rets) + ("" if ok else " — VIOLATED: %s" % [w for b_, w, s_ in rets][:4]))
    s = crate.one("slug::slug")
    calls = [callee_def(t) for bb, t in s.calls()]
    ok = calls == ["slug::slugify"] or (len(calls) == 1 and calls[0].endswith("slugify"))
    rep.add("C20.SLUG", "C20.SLUG:slug:delegates", ok, s.where(0), "slug is slug::slugify(val) verbatim (output alphabet is the third-party crate's contract)" + ("" if ok else " — VIOLATED: %s" % calls))
