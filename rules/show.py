#!/usr/bin/env python3
"""Debug helper: pretty-print the MIR facts of one function.  usage: show.py <config> <fn path suffix> [bb..]"""
import sys
import os
sys.path.insert(0, os.path.dirname(os.path.abspath(__file__)))
import cli
from engine import pl_str, callee_name


def op_s(op):
    if op["k"] == "const":
        if "fn" in op:
            return "fn:" + op["fn"]
        v = op.get("v", op.get("s", op.get("cdef", "?")))
        return "const(%s:%s)" % (v, op.get("ty"))
    return ("mv " if op["k"] == "move" else "") + pl_str(op["pl"])


def rv_s(rv):
    k = rv["k"]
    if k == "use":
        return op_s(rv["op"])
    if k == "ref":
        return "&%s%s" % ("mut " if rv["bk"] == "mut" else "", pl_str(rv["pl"]))
    if k == "rawptr":
        return "&raw %s" % pl_str(rv["pl"])
    if k == "cast":
        return "%s as %s [%s from %s]" % (op_s(rv["op"]), rv["to"], rv["ck"], rv["from"])
    if k == "bin":
        return "%s(%s, %s) [%s]" % (rv["op"], op_s(rv["l"]), op_s(rv["r"]), rv["lty"])
    if k == "un":
        return "%s(%s)" % (rv["op"], op_s(rv["a"]))
    if k == "discr":
        return "discr(%s) [%s]" % (pl_str(rv["pl"]), rv["adt"])
    if k == "agg":
        if rv["ak"] == "adt":
            return "%s::%s{%s}" % (rv["adt"], rv["variant"], ", ".join("%s: %s" % (f, op_s(o)) for f, o in zip(rv["fields"], rv["ops"])))
        return "%s(%s)%s" % (rv["ak"], ", ".join(op_s(o) for o in rv["ops"]), " " + rv.get("def", "") if rv.get("def") else "")
    return k


def term_s(t):
    k = t["k"]
    if k == "goto":
        return "goto bb%d" % t["t"]
    if k == "switch":
        return "switch %s [%s] -> %s, otherwise bb%d" % (op_s(t["op"]), t["ty"], ", ".join("%s:bb%d" % (v, b) for v, b in t["targets"]), t["otherwise"])
    if k == "call":
        f = t["f"]
        name = "(*%s)" % op_s(f["op"]) if f.get("indirect") else f.get("inst", f["def"])
        res = "" if f.get("indirect") or not f.get("res") or f.get("res") == f["def"] else " => " + f["res"]
        return "%s = %s(%s)%s -> %s" % (pl_str(t["dest"]), name, ", ".join(op_s(a) for a in t["args"]), res,
                                       "bb%d" % t["t"] if t["t"] is not None else "!")
    if k == "assert":
        return "assert(%s == %s) [%s] -> bb%d" % (op_s(t["cond"]), t["expected"], t.get("ak"), t["t"])
    if k == "drop":
        return "drop(%s) -> bb%d" % (pl_str(t["pl"]), t["t"])
    return k


def main():
    cfg, suffix = sys.argv[1], sys.argv[2]
    only = set(int(x) for x in sys.argv[3:])
    c = cli.load_crate(cfg)
    bodies = [b for p, b in c.bodies.items() if p.endswith(suffix)]
    for b in bodies:
        print("fn %s  (%s:%s) args=%d blocks=%d" % (b.path, b.file, b.line, b.arg_count, b.n))
        if not only:
            for i, l in enumerate(b.locals):
                print("  let _%d: %s%s" % (i, l["ty"], "  // " + l["n"] if l.get("n") else ""))
            for u in b.j.get("upvars", []):
                print("  upvar %s = %s" % (u["n"], pl_str(u["pl"])))
        for i, blk in enumerate(b.blocks):
            if only and i not in only:
                continue
            if blk["cleanup"]:
                continue
            print(" bb%d:" % i)
            for s in blk["s"]:
                sp = s.get("sp", {})
                if s["k"] == "assign":
                    print("    %s = %s    // L%s%s" % (pl_str(s["pl"]), rv_s(s["rv"]), sp.get("l"), " " + sp["x"] if "x" in sp else ""))
                else:
                    print("    %s %s" % (s["k"], pl_str(s["pl"]) if "pl" in s else ""))
            t = blk["t"]
            sp = t.get("sp", {})
            print("    %s    // L%s%s" % (term_s(t), sp.get("l"), " " + sp["x"] if "x" in sp else ""))


if __name__ == "__main__":
    main()
